import H5V.Lemmas.HtmlTBSkelShapeTable2
/-!
C06, second invariant layer, part 30: InCaption, InColumnGroup, InTableBody, InRow, InCell, InTemplate.
-/
namespace H5V.Props.C06
open H5V.Model.Dom hiding Str
open H5V.Model.HtmlTB hiding Str
open H5V.Lemmas.Dom
set_option synthInstance.maxSize 4096
set_option synthInstance.maxHeartbeats 400000

theorem tg_below {name : Id → EName} {below above : List Id} {x : Id} (htg : TG name (below ++ x :: above))
    (hne : below ≠ []) : ∃ b0 p, below = b0 ++ [p] ∧ predOk (name x) (name p) = true := by
  rcases nil_or_concat below with rfl | ⟨b0, p, rfl⟩
  · exact absurd rfl hne
  · exact ⟨b0, p, rfl, htg b0 p x above (by simp)⟩

/-- closing an element that is in table scope: it and everything above it is popped; the element below
it is what the table grammar prescribes -/
theorem closeScope_big {m m' : Mode} {r : Id} {ph : Phase} {s s' : State} {P : EName → Bool} {popped : List Id}
    (hb : Big m r ph s) (hi : InScP tableScope P s)
    (hP : ∀ n, P n = true → htmlIn n ["html", "body", "head", "template"] = false)
    (p : PR s s' popped)
    (hfin : ∀ below x above, s.openElems = below ++ x :: above → P (nm s.dom x) = true →
      (∀ y ∈ above, P (nm s.dom y) = false ∧ tableScope (nm s.dom y) = false) → s'.openElems = below)
    (hneed : ∀ up' x pr, s'.openElems = r :: up' → P (nm s.dom x) = true → s'.openElems.getLast? = some pr →
      predOk (nm s.dom x) (nm s'.dom pr) = true → Need s'.dom m' up') :
    Big m' r ph s' ∧ s'.mode = s.mode ∧ s'.origMode = s.origMode := by
  obtain ⟨below, x, above, hst, hx, hab⟩ := id hi
  have hs' := hfin below x above hst hx hab
  obtain ⟨up, hc, _⟩ := id hb
  have hne : below ≠ [] := by
    rintro rfl
    have h1 := hc.stack
    rw [hst] at h1
    simp at h1
    have := hP _ hx
    rw [h1.1, hc.root_name] at this; exact absurd this (by decide)
  have htg := hc.tg
  rw [hst] at htg
  obtain ⟨b0, pr, hbl, hpred⟩ := tg_below htg hne
  refine ⟨hb.popScope hi hP p ?_ (fun up' hup => hneed up' x pr hup hx (by rw [hs', hbl]; simp) (by
    rw [nm_of_nodes p.nodes pr]; exact hpred)), by rw [p.rest], by rw [p.rest]⟩
  intro below2 x2 above2 hst2 hx2 hab2 y hy
  have hs2 := hfin below2 x2 above2 hst2 hx2 hab2
  have hps := p.stack
  rw [hst2, hs2] at hps
  have := List.append_cancel_left hps
  rw [← this] at hy
  rcases List.mem_cons.mp hy with h1 | h1
  · exact Or.inl h1
  · exact Or.inr h1


/-- popping down to a current node that is neither the root nor `head` -/
theorem Big.popKeep {m m' : Mode} {r : Id} {ph : Phase} {s s' : State} {popped : List Id} (h : Big m r ph s)
    (p : PR s s' popped)
    (hcur : ∃ t, s'.openElems.getLast? = some t ∧ t ≠ r ∧ nm s.dom t ≠ hN "head")
    (hneed : ∀ up', s'.openElems = r :: up' → Need s'.dom m' up') : Big m' r ph s' := by
  obtain ⟨up, hc, hbb, _, _⟩ := h
  obtain ⟨t, ht, htr, hth⟩ := hcur
  have hst := p.stack
  rw [hc.stack] at hst
  have hnm : ∀ x, nm s'.dom x = nm s.dom x := nm_of_nodes p.nodes
  -- the rest of the stack is r :: up'
  obtain ⟨up', hs', hup⟩ : ∃ up', s'.openElems = r :: up' ∧ up = up' ++ popped := by
    cases hq : s'.openElems with
    | nil => rw [hq] at ht; cases ht
    | cons a0 t0 =>
      rw [hq] at hst
      simp only [List.cons_append, List.cons.injEq] at hst
      exact ⟨t0, by rw [hst.1], hst.2⟩
  have hc' : Core s' r up' ph := hc.pr p hup
  have htu : t ∈ up' := mem_up_of_last hs' ht htr
  have hhead : s'.headElem = s.headElem := by rw [p.rest]
  refine ⟨up', hc', ?_, hneed up' hs', FPok.triv _ _⟩
  rw [hhead]
  have hlast : up'.getLast? = some t := by
    rw [hs'] at ht
    cases up' with
    | nil => cases htu
    | cons a l => simpa [List.getLast?_cons_cons] using ht
  rcases hbb with ⟨b, u, hu, rfl, hnh⟩ | ⟨hh, t1, u, h0, hu, htn, rfl⟩ | ⟨t1, u, hu, htn, rfl, hnh⟩
  · cases up' with
    | nil => cases htu
    | cons a l =>
      rw [hu] at hup; simp only [List.cons_append, List.cons.injEq] at hup
      obtain ⟨rfl, hu'⟩ := hup
      exact Or.inl ⟨b, l, rfl, rfl, fun h hh hmem => hnh h hh (by
        rw [hu, hu']
        rcases List.mem_cons.mp hmem with h1 | h1
        · rw [h1]; exact List.mem_cons_self
        · exact List.mem_cons_of_mem _ (List.mem_append_left _ h1))⟩
  · have hhn : nm s.dom hh = hN "head" := by
      obtain ⟨h', e1, _, e3⟩ := hc.elems
      rw [h0] at e1; cases e1; exact e3
    cases up' with
    | nil => cases htu
    | cons a l =>
      rw [hu] at hup; simp only [List.cons_append, List.cons.injEq] at hup
      obtain ⟨rfl, hu'⟩ := hup
      cases l with
      | nil =>
        simp at hlast
        rw [← hlast] at hth
        exact absurd hhn hth
      | cons a2 l2 =>
        simp only [List.cons_append, List.cons.injEq] at hu'
        obtain ⟨rfl, _⟩ := hu'
        exact Or.inr (Or.inl ⟨hh, t1, l2, h0, rfl, by rw [hnm]; exact htn, rfl⟩)
  · cases up' with
    | nil => cases htu
    | cons a l =>
      rw [hu] at hup; simp only [List.cons_append, List.cons.injEq] at hup
      obtain ⟨rfl, hu'⟩ := hup
      exact Or.inr (Or.inr ⟨t1, l, rfl, by rw [hnm]; exact htn, rfl, fun h hh hmem => hnh h hh (by
        rw [hu, hu']
        rcases List.mem_cons.mp hmem with h1 | h1
        · rw [h1]; exact List.mem_cons_self
        · exact List.mem_cons_of_mem _ (List.mem_append_left _ h1))⟩)

/-- `pop_until(P)` when an element satisfying `P` is on the stack: what is below the popped
element is its predecessor in the table grammar -/
theorem popUntil_pred {s s' : State} {r : Id} {up : List Id} {ph : Phase} {P : EName → Bool} {k : Nat}
    (hc : Core s r up ph) (e : popUntil P s = .ok (k, s'))
    (hex : ∃ x ∈ s.openElems, P (nm s.dom x) = true) (hPr : P (hN "html") = false) :
    ∃ popped m0, PR s s' popped ∧ P (nm s.dom m0) = true ∧
      ∃ pr, s'.openElems.getLast? = some pr ∧ predOk (nm s.dom m0) (nm s.dom pr) = true := by
  obtain ⟨popped, p, hcase⟩ := popUntil_sem e
  rcases hcase with ⟨m0, above, rfl, hm0, _⟩ | ⟨hemp, hall⟩
  · refine ⟨_, m0, p, hm0, ?_⟩
    have hst := p.stack
    have htg := hc.tg
    rw [hst] at htg
    have hne : s'.openElems ≠ [] := by
      intro h0
      rw [h0, hc.stack] at hst
      simp at hst
      rw [← hst.1, hc.root_name, hPr] at hm0; cases hm0
    obtain ⟨b0, pr, hbl, hpred⟩ := tg_below htg hne
    exact ⟨pr, by rw [hbl]; simp, hpred⟩
  · exfalso
    obtain ⟨x, hx, hxp⟩ := hex
    have hst := p.stack
    rw [hemp] at hst
    simp only [List.nil_append] at hst
    have := hall x (by rw [← hst]; exact hx)
    rw [hxp] at this; cases this


/-- `pop_until(P)` closing a table-structure element: the mode `m'` finds its witness in the
predecessor -/
theorem closeP_big {m m' : Mode} {r : Id} {ph : Phase} {s s' : State} {P : EName → Bool} {wl : List String} {k : Nat}
    (hb : Big m r ph s) (e : popUntil P s = .ok (k, s'))
    (hex : ∃ x ∈ s.openElems, P (nm s.dom x) = true) (hPr : P (hN "html") = false)
    (hpred : ∀ n pr, P n = true → predOk n pr = true → htmlIn pr wl = true)
    (hwl : htmlIn (hN "html") wl = false ∧ htmlIn (hN "head") wl = false)
    (hneed : ∀ d up' pr, pr ∈ up' → htmlIn (nm d pr) wl = true → Need d m' up') :
    Big m' r ph s' ∧ s'.mode = s.mode ∧ s'.origMode = s.origMode := by
  obtain ⟨up, hc, _⟩ := id hb
  obtain ⟨popped, m0, p, hm0, pr, hpr, hpo⟩ := popUntil_pred hc e hex hPr
  have hw := hpred _ _ hm0 hpo
  have hprr : pr ≠ r := by
    rintro rfl
    rw [hc.root_name, hwl.1] at hw; cases hw
  refine ⟨hb.popKeep p ⟨pr, hpr, hprr, fun hn => by rw [hn, hwl.2] at hw; cases hw⟩ (fun up' hup =>
    hneed _ up' pr (mem_up_of_last hup hpr hprr) (by rw [nm_of_nodes p.nodes]; exact hw)), by rw [p.rest], by rw [p.rest]⟩

/-- `generate_implied_end_tags(cursory); expect_to_close(X)` for a table-structure element `X` on the stack -/
theorem closeImplied_big {m m' : Mode} {r : Id} {ph : Phase} {s s1 s2 : State} {X : Str} {wl : List String}
    {u u' : Unit} (hb : Big m r ph s) (hex : ∃ x ∈ s.openElems, nm s.dom x = ⟨nsHtml, X⟩)
    (hX : cursoryImpliedEnd ⟨nsHtml, X⟩ = false) (hXh : (⟨nsHtml, X⟩ : EName) ≠ hN "html")
    (e1 : generateImpliedEndTags cursoryImpliedEnd s = .ok (u, s1)) (e2 : expectToCloseS X s1 = .ok (u', s2))
    (hpred : ∀ pr, predOk ⟨nsHtml, X⟩ pr = true → htmlIn pr wl = true)
    (hwl : htmlIn (hN "html") wl = false ∧ htmlIn (hN "head") wl = false)
    (hneed : ∀ d up' pr, pr ∈ up' → htmlIn (nm d pr) wl = true → Need d m' up') :
    Big m' r ph s2 ∧ s2.mode = s.mode ∧ s2.origMode = s.origMode := by
  obtain ⟨pop1, p1, hp1, _⟩ := generateImpliedEndTags_sem e1
  have hb1 : Big m r ph s1 := hb.pop p1 (fun x hx => keepName_cursory (hp1 x hx))
  obtain ⟨x, hx, hxn⟩ := hex
  have hx1 : x ∈ s1.openElems := by
    have : x ∈ s1.openElems ++ pop1 := by rw [← p1.stack]; exact hx
    rcases List.mem_append.mp this with h | h
    · exact h
    · have := hp1 x h; rw [hxn, hX] at this; cases this
  unfold expectToCloseS at e2
  obtain ⟨k, s1', e3, e4⟩ := bind_ok.mp e2
  unfold popUntilNamedS at e3
  have hq : QS s1' s2 := by
    rcases ite_run e4 with ⟨_, e4⟩ | ⟨_, e4⟩
    · exact qs_parseError e4
    · obtain ⟨_, rfl⟩ := pure_ok.mp e4; exact QS.refl _
  obtain ⟨g1, g2, g3⟩ := closeP_big (m' := m') (wl := wl) hb1 e3
    ⟨x, hx1, by rw [nm_of_nodes p1.nodes, hxn]; simp⟩
    (by
      cases hq : ((hN "html").ns == nsHtml && (hN "html").loc == X) with
      | false => rfl
      | true =>
        exfalso
        simp only [Bool.and_eq_true, beq_iff_eq] at hq
        exact hXh (by rw [← hq.2]; rfl))
    (fun n pr hn hpo => hpred pr (by
      have : n = ⟨nsHtml, X⟩ := namedP_eq hn
      rw [← this]; exact hpo)) hwl hneed
  exact ⟨g1.qs hq, (hq.mode.trans g2).trans (by rw [p1.rest]),
    (show s2.origMode = s1'.origMode by rw [hq.rest]).trans (g3.trans (by rw [p1.rest]))⟩


theorem InScP.named {sc : EName → Bool} {X : Str} {s : State} (h : InScP sc (namedP X) s) :
    ∃ x ∈ s.openElems, nm s.dom x = ⟨nsHtml, X⟩ := by
  obtain ⟨below, x, above, hst, hx, _⟩ := h
  exact ⟨x, by rw [hst]; simp, namedP_eq hx⟩

theorem genEnd_triv {tag : Tag} {m : Mode} (h : needTriv m = true) : GenEnd tag m :=
  fun _ _ _ => Or.inr h

/-! ### InCaption -/

theorem modeOk_inCaption : ModeOk .inCaption := by
  intro tok ht r s res s' hg hm e
  have e' : stepInCaption tok s = .ok (res, s') := e
  unfold stepInCaption at e'
  have body : stepInBody tok s = .ok (res, s') → Out r s' res := fun e0 =>
    stepInBody_good2 hg hm rfl (fun tag _ => genEnd_triv rfl) e0
  cases tok with
  | tag tag =>
    dsimp only at e'
    obtain ⟨ph, hb⟩ := hg.big hm rfl
    rcases ite_run e' with ⟨h1, e'⟩ | ⟨h1, e'⟩
    · obtain ⟨b, s1, e1, e2⟩ := bind_ok.mp e'
      unfold inScopeNamed inScopeNamedS at e1
      obtain ⟨q1, hi⟩ := inScope_inScP e1
      rcases ite_run e2 with ⟨hbt, e2⟩ | ⟨_, e2⟩
      · obtain ⟨_, s2, e3, e4⟩ := bind_ok.mp e2
        obtain ⟨_, s3, e5, e6⟩ := bind_ok.mp e4
        obtain ⟨_, s4, e7, e8⟩ := bind_ok.mp e6
        unfold expectToClose at e5
        obtain ⟨hb3, hm3, _⟩ := closeImplied_big (m' := .inTable) (wl := ["table", "template"]) (hb.qs q1)
          ((hi hbt).qs q1).named (by decide) (by decide) e3 e5
          (fun pr hp => by
            cases hq : htmlIn pr ["table", "template"] with
            | true => rfl
            | false =>
              have : predOk (⟨nsHtml, "caption".toList⟩ : EName) pr = htmlIn pr ["table", "template"] := by
                unfold predOk
                rw [if_neg (by decide), if_pos (by decide)]
              rw [this, hq] at hp; cases hp)
          (by decide) (fun d up' pr hpr hw => ⟨pr, hpr, hw⟩)
        obtain ⟨hb4, hm4, _⟩ := (inferInstance : PB clearActiveFormattingToMarker).p _ _ _ _ _ _ hb3 e7
        rcases ite_run e8 with ⟨_, e8⟩ | ⟨_, e8⟩
        · obtain ⟨_, s5, e9, e10⟩ := bind_ok.mp e8
          obtain ⟨rfl, rfl⟩ := pure_ok.mp e10
          unfold setMode at e9
          obtain ⟨_, rfl⟩ := modS_ok.mp e9
          exact (hb4.setMode rfl).good rfl rfl
        · obtain ⟨rfl, rfl⟩ := pure_ok.mp e8
          exact ⟨(hb4.setMode rfl).good rfl rfl, inferInstance⟩
      · obtain ⟨_, s2, e3, e4⟩ := bind_ok.mp e2
        obtain ⟨rfl, rfl⟩ := pure_ok.mp e4
        exact (hg.qs q1).qs (qs_unexpected e3).1
    · rcases ite_run e' with ⟨h2, e'⟩ | ⟨h2, e'⟩
      · obtain ⟨q, rfl⟩ := qs_unexpected e'
        exact hg.qs q
      · exact body e'
  | nullChar => dsimp only at e'; exact body e'
  | chars st text => dsimp only at e'; exact body e'
  | comment c => dsimp only at e'; exact body e'
  | eof => dsimp only at e'; exact body e'


/-- popping a current node that is a table-structure element -/
theorem popCurrent_big {m m' : Mode} {r t y : Id} {ph : Phase} {s s' : State} {wl : List String}
    (hb : Big m r ph s) (hl : s.openElems.getLast? = some t) (htr : nm s.dom t ≠ hN "html")
    (e : pop s = .ok (y, s'))
    (hpred : ∀ pr, predOk (nm s.dom t) pr = true → htmlIn pr wl = true)
    (hwl : htmlIn (hN "html") wl = false ∧ htmlIn (hN "head") wl = false)
    (hneed : ∀ d up' pr, pr ∈ up' → htmlIn (nm d pr) wl = true → Need d m' up') :
    Big m' r ph s' ∧ s'.mode = s.mode ∧ s'.origMode = s.origMode := by
  obtain ⟨up, hc, _⟩ := id hb
  have p := pop_sem e
  have hst := p.stack
  have hy : y = t := by
    rw [hst] at hl
    simpa using hl
  subst hy
  have hne : s'.openElems ≠ [] := by
    intro h0
    rw [h0, hc.stack] at hst
    simp at hst
    exact htr (by rw [← hst.1]; exact hc.root_name)
  have htg := hc.tg
  rw [hst] at htg
  obtain ⟨b0, pr, hbl, hpo⟩ := tg_below htg hne
  have hw := hpred _ hpo
  have hpr : s'.openElems.getLast? = some pr := by rw [hbl]; simp
  have hprr : pr ≠ r := by
    rintro rfl
    rw [hc.root_name, hwl.1] at hw; cases hw
  exact ⟨hb.popKeep p ⟨pr, hpr, hprr, fun hn => by rw [hn, hwl.2] at hw; cases hw⟩ (fun up' hup =>
    hneed _ up' pr (mem_up_of_last hup hpr hprr) (by rw [nm_of_nodes p.nodes]; exact hw)), by rw [p.rest], by rw [p.rest]⟩

theorem predOk_sect {a : String} (ha : a ∈ ["tbody", "thead", "tfoot", "caption", "colgroup"]) (pr : EName)
    (h : predOk (hN a) pr = true) : htmlIn pr ["table", "template"] = true := by
  simp only [List.mem_cons, List.not_mem_nil, or_false] at ha
  rcases ha with rfl | rfl | rfl | rfl | rfl <;>
    (unfold predOk at h; rw [if_neg (by decide), if_pos (by decide)] at h; exact h)

theorem predOk_tr (pr : EName) (h : predOk (hN "tr") pr = true) :
    htmlIn pr ["tbody", "thead", "tfoot", "template"] = true := by
  unfold predOk at h; rw [if_pos (by decide)] at h; exact h

theorem predOk_cell {a : String} (ha : a ∈ ["td", "th"]) (pr : EName) (h : predOk (hN a) pr = true) :
    htmlIn pr ["tr", "template"] = true := by
  simp only [List.mem_cons, List.not_mem_nil, or_false] at ha
  rcases ha with rfl | rfl <;>
    (unfold predOk at h; rw [if_neg (by decide), if_neg (by decide), if_pos (by decide)] at h; exact h)

/-! ### InColumnGroup -/

theorem modeOk_inColumnGroup : ModeOk .inColumnGroup := by
  intro tok ht r s res s' hg hm e
  have e' : stepInColumnGroup tok s = .ok (res, s') := e
  unfold stepInColumnGroup at e'
  obtain ⟨ph, hb⟩ := hg.big hm rfl
  have body : stepInBody tok s = .ok (res, s') → Out r s' res := fun e0 =>
    stepInBody_good2 hg hm rfl (fun tag _ => genEnd_triv rfl) e0
  have unexp : unexpected s = .ok (res, s') → Out r s' res := by
    intro e0
    obtain ⟨q, rfl⟩ := qs_unexpected e0
    exact hg.qs q
  -- the current node is `colgroup`: it is popped, the mode is InTable again
  have popCol : ∀ (s1 s2 : State) (y : Id) (b : Bool), currentNodeNamed "colgroup" s = .ok (b, s1) → b = true →
      pop s1 = .ok (y, s2) → Big .inTable r ph s2 ∧ s2.mode = .inColumnGroup := by
    intro s1 s2 y b e1 hbt e2
    obtain ⟨q1, t, hl, hbn⟩ := currentNodeNamed_sem e1
    have htn : nm s.dom t = hN "colgroup" := by
      rw [hbt] at hbn
      have := hbn.symm
      simp only [Bool.and_eq_true, beq_iff_eq] at this
      have h0 : nm s.dom t = ⟨(nm s.dom t).ns, (nm s.dom t).loc⟩ := rfl
      rw [h0, this.1, this.2]; rfl
    obtain ⟨g1, g2, _⟩ := popCurrent_big (m' := .inTable) (wl := ["table", "template"]) (hb.qs q1)
      (by rw [q1.openElems]; exact hl) (by rw [q1.nm, htn]; decide) e2
      (fun pr hp => by rw [q1.nm, htn] at hp; exact predOk_sect (a := "colgroup") (by simp) pr hp)
      (by decide) (fun d up' pr hpr hw => ⟨pr, hpr, hw⟩)
    exact ⟨g1, g2.trans (q1.mode.trans hm)⟩
  have anyElse : ∀ t : Token, TokW t →
      (currentNodeNamed "colgroup" >>= fun b => if b = true then
          pop >>= fun _ => pure (ProcessResult.reprocess .inTable t) else unexpected) s = .ok (res, s') →
      Out r s' res := by
    intro t htw e0
    obtain ⟨b, s1, e1, e2⟩ := bind_ok.mp e0
    have q1 : QS s s1 := IsQ.q _ _ _ e1
    rcases ite_run e2 with ⟨hbt, e2⟩ | ⟨_, e2⟩
    · obtain ⟨y, s2, e3, e4⟩ := bind_ok.mp e2
      obtain ⟨rfl, rfl⟩ := pure_ok.mp e4
      obtain ⟨g1, _⟩ := popCol s1 _ y b e1 hbt e3
      exact ⟨(g1.setMode rfl).good rfl rfl, htw⟩
    · obtain ⟨q, rfl⟩ := qs_unexpected e2
      exact (hg.qs q1).qs q
  cases tok with
  | chars st text =>
    cases st with
    | notSplit => dsimp only at e'; obtain ⟨rfl, rfl⟩ := pure_ok.mp e'; exact hg
    | whitespace =>
      dsimp only at e'
      haveI : NE text := ⟨ht.ne _ _ rfl⟩
      exact (inferInstance : RB (appendText text)).good hg hm rfl e'
    | notWhitespace => dsimp only at e'; exact anyElse _ ht e'
  | comment c =>
    dsimp only at e'
    exact (inferInstance : RB (appendComment c)).good hg hm rfl e'
  | eof => dsimp only at e'; exact body e'
  | nullChar => dsimp only at e'; exact anyElse _ ht e'
  | tag tag =>
    dsimp only at e'
    rcases ite_run e' with ⟨h1, e'⟩ | ⟨h1, e'⟩
    · exact body e'
    rcases ite_run e' with ⟨h2, e'⟩ | ⟨h2, e'⟩
    · obtain ⟨el, s1, e1, e2⟩ := bind_ok.mp e'
      obtain ⟨rfl, rfl⟩ := pure_ok.mp e2
      unfold insertAndPopElementFor at e1
      obtain ⟨a, ha, hn, _⟩ := name_of_isStart h2
      simp only [List.mem_cons, List.not_mem_nil, or_false] at ha
      subst ha
      rw [hn] at e1
      obtain ⟨hb2, hm2, _⟩ := insertElement_big hb (by decide) e1
      exact hb2.good (hm2.trans hm) rfl
    rcases ite_run e' with ⟨h3, e'⟩ | ⟨h3, e'⟩
    · obtain ⟨b, s1, e1, e2⟩ := bind_ok.mp e'
      have q1 : QS s s1 := IsQ.q _ _ _ e1
      rcases ite_run e2 with ⟨hbt, e2⟩ | ⟨_, e2⟩
      · obtain ⟨y, s2, e3, e4⟩ := bind_ok.mp e2
        obtain ⟨_, s3, e5, e6⟩ := bind_ok.mp e4
        obtain ⟨rfl, rfl⟩ := pure_ok.mp e6
        unfold setMode at e5
        obtain ⟨_, rfl⟩ := modS_ok.mp e5
        obtain ⟨g1, _⟩ := popCol s1 _ y b e1 hbt e3
        exact (g1.setMode rfl).good rfl rfl
      · obtain ⟨_, s2, e3, e4⟩ := bind_ok.mp e2
        obtain ⟨rfl, rfl⟩ := pure_ok.mp e4
        exact (hg.qs q1).qs (qs_unexpected e3).1
    rcases ite_run e' with ⟨h4, e'⟩ | ⟨h4, e'⟩
    · exact unexp e'
    rcases ite_run e' with ⟨h5, e'⟩ | ⟨h5, e'⟩
    · refine (rb_headTags tag ?_).good hg hm rfl e'
      rcases Bool.or_eq_true_iff.mp h5 with h | h
      · rw [isStart_sub h (by decide)]; rfl
      · rw [h]; simp
    · exact anyElse _ inferInstance e'


theorem split_unique_at {l1 r1 l2 r2 : List Id} {x : Id} (h : l1 ++ x :: r1 = l2 ++ x :: r2) (h1 : x ∉ l1)
    (h2 : x ∉ r1) : l1 = l2 ∧ r1 = r2 := by
  rcases List.append_eq_append_iff.mp h with ⟨c, hc1, hc2⟩ | ⟨c, hc1, hc2⟩
  · cases c with
    | nil => simp at hc1 hc2; exact ⟨hc1.symm, hc2⟩
    | cons z c' =>
      exfalso
      simp only [List.cons_append, List.cons.injEq] at hc2
      exact h2 (by rw [hc2.2]; simp)
  · cases c with
    | nil => simp at hc1 hc2; exact ⟨hc1, hc2.symm⟩
    | cons z c' =>
      exfalso
      simp only [List.cons_append, List.cons.injEq] at hc2
      exact h1 (by rw [hc1, ← hc2.1]; simp)

/-- after popping elements other than `x`, the current node is `x` or above it -/
theorem cur_in_scope {l l1 popped below above : List Id} {x t : Id} (hnd : l.Nodup) (hl : l = below ++ x :: above)
    (hp : l = l1 ++ popped) (hx : x ∉ popped) (ht : l1.getLast? = some t) : t = x ∨ t ∈ above := by
  have hxl1 : x ∈ l1 := by
    have : x ∈ l1 ++ popped := by rw [← hp, hl]; simp
    rcases List.mem_append.mp this with h | h
    · exact h
    · exact absurd h hx
  obtain ⟨a, b, hab⟩ := List.append_of_mem hxl1
  have h1 : below ++ x :: above = a ++ x :: (b ++ popped) := by rw [← hl, hp, hab]; simp
  have hnd' := hnd
  rw [hl] at hnd'
  have hxa : x ∉ above := by
    intro hm
    have := (List.nodup_append.mp hnd').2.1
    exact (List.nodup_cons.mp this).1 hm
  have hxb : x ∉ below := by
    intro hm
    exact (List.nodup_append.mp hnd').2.2 x hm x (by simp) rfl
  obtain ⟨_, h3⟩ := split_unique_at h1 hxb hxa
  rw [hab] at ht
  rcases nil_or_concat b with rfl | ⟨b0, z, rfl⟩
  · left; simpa using ht.symm
  · right
    have : t = z := by
      have h2 : a ++ x :: (b0 ++ [z]) = (a ++ x :: b0) ++ [z] := by simp
      rw [h2, List.getLast?_append] at ht; simpa using ht.symm
    rw [this, h3]; simp


/-- "clear the stack back to a table body (row) context, then pop", when such an element is in table scope -/
theorem popCtxClose {m m' : Mode} {r y : Id} {ph : Phase} {s s1 s2 : State} {ctx P : EName → Bool}
    {cl wl : List String} {u : Unit}
    (hb : Big m r ph s) (hi : InScP tableScope P s)
    (hPctx : ∀ n, P n = true → ctx n = true) (hPsc : ∀ n, P n = true → tableScope n = false)
    (htm : ctx (hN "template") = true)
    (hcl : ∀ n, ctx n = true → tableScope n = false → htmlIn n cl = true)
    (hpredcl : ∀ n pr, htmlIn n cl = true → predOk n pr = true → htmlIn pr wl = true)
    (hwl : htmlIn (hN "html") wl = false ∧ htmlIn (hN "head") wl = false)
    (hneed : ∀ d up' pr, pr ∈ up' → htmlIn (nm d pr) wl = true → Need d m' up')
    (e1 : popUntilCurrent ctx s = .ok (u, s1)) (e2 : pop s1 = .ok (y, s2)) :
    Big m' r ph s2 ∧ s2.mode = s.mode ∧ s2.origMode = s.origMode ∧ htmlIn (nm s.dom y) cl = true := by
  obtain ⟨below, x, above, hst, hx, hab⟩ := hi
  obtain ⟨up, hc, _⟩ := id hb
  have hxr : x ≠ r := by
    rintro rfl
    have := hPsc _ hx
    rw [hc.root_name] at this; revert this; decide
  obtain ⟨popped, p, hp, t, ht, htc⟩ := popUntilCurrent_sem e1
  obtain ⟨hb1, hm1, ho1, _⟩ := popCtx_big (m' := .inBody) hb ⟨x, by rw [hst]; simp, hxr, hPctx _ hx⟩ htm e1
    (fun _ _ _ => trivial)
  have hxp : x ∉ popped := fun hm => by
    have := hp x hm; rw [hPctx _ hx] at this; cases this
  have htx := cur_in_scope hc.nodup hst p.stack hxp ht
  have htsc : tableScope (nm s.dom t) = false := by
    rcases htx with rfl | h
    · exact hPsc _ hx
    · exact (hab t h).2
  have htcl : htmlIn (nm s.dom t) cl = true := hcl _ htc htsc
  have hnm1 : ∀ z, nm s1.dom z = nm s.dom z := nm_of_nodes p.nodes
  have hth : nm s1.dom t ≠ hN "html" := by
    rw [hnm1]; intro hn; rw [hn] at htsc; revert htsc; decide
  have hy : y = t := by
    have := (pop_sem e2).stack
    rw [this] at ht
    simpa using ht
  obtain ⟨g1, g2, g3⟩ := popCurrent_big (m' := m') (wl := wl) hb1 ht hth e2
    (fun pr hpo => hpredcl _ pr (by rw [hnm1]; exact htcl) hpo) hwl hneed
  exact ⟨g1, g2.trans hm1, g3.trans ho1, by rw [hy]; exact htcl⟩

/-! ### InTableBody -/

theorem sect_ctx : ∀ n, htmlIn n ["tbody", "tfoot", "thead"] = true → tableBodyContext n = true := by
  intro n hn; obtain ⟨a, ha, rfl⟩ := htmlIn_eq hn; revert a; decide

theorem tob_sect : ∀ n, tableOuterBody n = true → htmlIn n ["tbody", "tfoot", "thead"] = true := by
  intro n hn; obtain ⟨a, ha, rfl⟩ := htmlIn_eq hn; revert a; decide

theorem sect_nsc : ∀ n, htmlIn n ["tbody", "tfoot", "thead"] = true → tableScope n = false := by
  intro n hn; obtain ⟨a, ha, rfl⟩ := htmlIn_eq hn; revert a; decide

theorem tbc_cl : ∀ n, tableBodyContext n = true → tableScope n = false →
    htmlIn n ["tbody", "tfoot", "thead"] = true := by
  intro n h1 h2
  obtain ⟨a, ha, rfl⟩ := htmlIn_eq h1
  simp only [List.mem_cons, List.not_mem_nil, or_false] at ha
  rcases ha with rfl | rfl | rfl | rfl | rfl <;> first | rfl | (revert h2; decide)

theorem predcl_sect : ∀ n pr, htmlIn n ["tbody", "tfoot", "thead"] = true → predOk n pr = true →
    htmlIn pr ["table", "template"] = true := by
  intro n pr hn hp
  obtain ⟨a, ha, rfl⟩ := htmlIn_eq hn
  exact predOk_sect (by
    simp only [List.mem_cons, List.not_mem_nil, or_false] at ha ⊢
    rcases ha with rfl | rfl | rfl <;> simp) pr hp

set_option maxHeartbeats 1600000 in
theorem modeOk_inTableBody : ModeOk .inTableBody := by
  intro tok ht r s res s' hg hm e
  have e' : stepInTableBody tok s = .ok (res, s') := e
  unfold stepInTableBody at e'
  have tbl : ∀ (hside : ∀ tag, tok = .tag tag →
      tag.isStart ["caption", "colgroup", "col", "tbody", "tfoot", "thead", "td", "th", "tr"] = false),
      stepInTable tok s = .ok (res, s') → Out r s' res := fun hside e0 =>
    stepInTable_good hg hm (Or.inr (Or.inl rfl)) (fun _ => hside) e0
  cases tok with
  | tag tag =>
    dsimp only at e'
    obtain ⟨ph, hb⟩ := hg.big hm rfl
    have unexp : unexpected s = .ok (res, s') → Out r s' res := by
      intro e0
      obtain ⟨q, rfl⟩ := qs_unexpected e0
      exact hg.qs q
    rcases ite_run e' with ⟨h1, e'⟩ | ⟨h1, e'⟩
    · -- <tr>
      obtain ⟨_, s1, e1, e2⟩ := bind_ok.mp e'
      obtain ⟨hb1, hm1, _, t, ht1, htw, _⟩ := popTBody hb e1
      obtain ⟨el, s3, e5, e6⟩ := bind_ok.mp e2
      unfold insertElementFor at e5
      obtain ⟨a, ha, hn, _⟩ := name_of_isStart h1
      obtain ⟨hb3, _⟩ := sectionIns (m' := .inRow) (wl := ["tbody", "tfoot", "thead", "template"]) (names := ["tr"])
        ⟨a, ha, hn⟩ hb1 ht1 htw (by decide) (by decide) rfl
        (fun d up e0 he0 ⟨a', ha', hn'⟩ => ⟨e0, he0, by
          rw [hn']
          simp only [List.mem_cons, List.not_mem_nil, or_false] at ha'
          subst ha'; decide⟩) e5
      obtain ⟨_, s4, e7, e8⟩ := bind_ok.mp e6
      unfold setMode at e7
      obtain ⟨_, rfl⟩ := modS_ok.mp e7
      obtain ⟨rfl, rfl⟩ := pure_ok.mp e8
      exact hb3.good rfl rfl
    rcases ite_run e' with ⟨h2, e'⟩ | ⟨h2, e'⟩
    · -- <th>, <td>
      obtain ⟨_, s0, e0, e0'⟩ := bind_ok.mp e'
      have q0 := (qs_unexpected e0).1
      obtain ⟨_, s1, e1, e2⟩ := bind_ok.mp e0'
      obtain ⟨hb1, hm1, _, t, ht1, htw, _⟩ := popTBody (hb.qs q0) e1
      obtain ⟨el, s3, e5, e6⟩ := bind_ok.mp e2
      unfold insertPhantom at e5
      obtain ⟨hb3, _⟩ := sectionIns (m' := .inRow) (wl := ["tbody", "tfoot", "thead", "template"]) (names := ["tr"])
        ⟨"tr", by simp, rfl⟩ hb1 ht1 htw (by decide) (by decide) rfl
        (fun d up e0 he0 ⟨a', ha', hn'⟩ => ⟨e0, he0, by
          rw [hn']
          simp only [List.mem_cons, List.not_mem_nil, or_false] at ha'
          subst ha'; decide⟩) e5
      obtain ⟨rfl, rfl⟩ := pure_ok.mp e6
      exact ⟨hb3.good rfl rfl, inferInstance⟩
    rcases ite_run e' with ⟨h3, e'⟩ | ⟨h3, e'⟩
    · -- </tbody>, </tfoot>, </thead>
      obtain ⟨b, s1, e1, e2⟩ := bind_ok.mp e'
      unfold inScopeNamedS at e1
      obtain ⟨q1, hi⟩ := inScope_inScP e1
      obtain ⟨a, ha, hn, _⟩ := name_of_isEnd h3
      rcases ite_run e2 with ⟨hbt, e2⟩ | ⟨_, e2⟩
      · obtain ⟨_, s2, e3, e4⟩ := bind_ok.mp e2
        obtain ⟨y, s3, e5, e6⟩ := bind_ok.mp e4
        obtain ⟨_, s4, e7, e8⟩ := bind_ok.mp e6
        obtain ⟨rfl, rfl⟩ := pure_ok.mp e8
        unfold setMode at e7
        obtain ⟨_, rfl⟩ := modS_ok.mp e7
        have hPn : ∀ n, namedP tag.name n = true → htmlIn n ["tbody", "tfoot", "thead"] = true := by
          intro n hn'
          rw [namedP_eq hn', hn]
          simp only [List.mem_cons, List.not_mem_nil, or_false] at ha
          rcases ha with rfl | rfl | rfl <;> decide
        obtain ⟨g1, _, _, _⟩ := popCtxClose (m' := .inTable) (ctx := tableBodyContext)
          (cl := ["tbody", "tfoot", "thead"]) (wl := ["table", "template"]) (hb.qs q1) ((hi hbt).qs q1)
          (fun n hn' => sect_ctx n (hPn n hn')) (fun n hn' => sect_nsc n (hPn n hn'))
          (by decide) tbc_cl predcl_sect (by decide) (fun d up' pr hpr hw => ⟨pr, hpr, hw⟩) e3 e5
        exact (g1.setMode rfl).good rfl rfl
      · obtain ⟨_, s2, e3, e4⟩ := bind_ok.mp e2
        obtain ⟨rfl, rfl⟩ := pure_ok.mp e4
        exact (hg.qs q1).qs (qs_unexpected e3).1
    rcases ite_run e' with ⟨h4, e'⟩ | ⟨h4, e'⟩
    · -- <caption>, <col>, …, </table>
      obtain ⟨b, s1, e1, e2⟩ := bind_ok.mp e'
      obtain ⟨q1, hi⟩ := inScope_inScP (P := tableOuterBody) e1
      rcases ite_run e2 with ⟨hbt, e2⟩ | ⟨_, e2⟩
      · obtain ⟨_, s2, e3, e4⟩ := bind_ok.mp e2
        obtain ⟨y, s3, e5, e6⟩ := bind_ok.mp e4
        obtain ⟨rfl, rfl⟩ := pure_ok.mp e6
        obtain ⟨g1, _, _, _⟩ := popCtxClose (m' := .inTable) (ctx := tableBodyContext)
          (cl := ["tbody", "tfoot", "thead"]) (wl := ["table", "template"]) (hb.qs q1) ((hi hbt).qs q1)
          (fun n hn' => sect_ctx n (tob_sect n hn')) (fun n hn' => sect_nsc n (tob_sect n hn'))
          (by decide) tbc_cl predcl_sect (by decide) (fun d up' pr hpr hw => ⟨pr, hpr, hw⟩) e3 e5
        exact ⟨(g1.setMode rfl).good rfl rfl, inferInstance⟩
      · obtain ⟨q, rfl⟩ := qs_unexpected e2
        exact (hg.qs q1).qs q
    rcases ite_run e' with ⟨h5, e'⟩ | ⟨h5, e'⟩
    · exact unexp e'
    · refine tbl (fun tg htg => ?_) e'
      cases htg
      -- none of the table-structure start tags is left
      cases hq : tag.isStart ["caption", "colgroup", "col", "tbody", "tfoot", "thead", "td", "th", "tr"] with
      | false => rfl
      | true =>
        exfalso
        obtain ⟨a, ha, h1'⟩ := isStart_split hq
        simp only [List.mem_cons, List.not_mem_nil, or_false] at ha
        have h4' : ¬ tag.isStart ["caption", "col", "colgroup", "tbody", "tfoot", "thead"] = true := by
          intro h0; exact h4 (by rw [h0]; rfl)
        rcases ha with rfl | rfl | rfl | rfl | rfl | rfl | rfl | rfl | rfl
        · exact h4' (isStart_sub h1' (by decide))
        · exact h4' (isStart_sub h1' (by decide))
        · exact h4' (isStart_sub h1' (by decide))
        · exact h4' (isStart_sub h1' (by decide))
        · exact h4' (isStart_sub h1' (by decide))
        · exact h4' (isStart_sub h1' (by decide))
        · exact h2 (isStart_sub h1' (by decide))
        · exact h2 (isStart_sub h1' (by decide))
        · exact h1 h1'
  | nullChar => dsimp only at e'; exact tbl (by intro t h; cases h) e'
  | chars st text => dsimp only at e'; exact tbl (by intro t h; cases h) e'
  | comment c => dsimp only at e'; exact tbl (by intro t h; cases h) e'
  | eof => dsimp only at e'; exact tbl (by intro t h; cases h) e'


/-! ### InRow -/

theorem trc_cl : ∀ n, tableRowContext n = true → tableScope n = false → htmlIn n ["tr"] = true := by
  intro n h1 h2
  obtain ⟨a, ha, rfl⟩ := htmlIn_eq h1
  simp only [List.mem_cons, List.not_mem_nil, or_false] at ha
  rcases ha with rfl | rfl | rfl <;> first | rfl | (revert h2; decide)

theorem predcl_tr : ∀ n pr, htmlIn n ["tr"] = true → predOk n pr = true →
    htmlIn pr ["tbody", "tfoot", "thead", "template"] = true := by
  intro n pr hn hp
  obtain ⟨a, ha, rfl⟩ := htmlIn_eq hn
  simp only [List.mem_cons, List.not_mem_nil, or_false] at ha
  subst ha
  obtain ⟨b, hb, rfl⟩ := htmlIn_eq (predOk_tr pr hp)
  revert b; decide

/-- the row is closed: "clear the stack back to a table row context", pop the `tr` -/
theorem closeRow {r : Id} {ph : Phase} {s s1 s2 : State} {site : String} {u u' : Unit}
    (hb : Big .inRow r ph s) (hi : InScP tableScope (namedP "tr".toList) s)
    (e1 : popUntilCurrent tableRowContext s = .ok (u, s1)) (e2 : popTr site s1 = .ok (u', s2)) :
    Big .inTableBody r ph s2 := by
  unfold popTr at e2
  obtain ⟨y, s3, e3, e4⟩ := bind_ok.mp e2
  obtain ⟨b, s4, e5, e6⟩ := bind_ok.mp e4
  have q4 := (htmlElemNamed_sem e5).1
  have q5 : QS s4 s2 := by
    rcases ite_run e6 with ⟨_, e6⟩ | ⟨_, e6⟩
    · exact absurd e6 panicAt_ok
    · obtain ⟨_, rfl⟩ := pure_ok.mp e6; exact QS.refl _
  obtain ⟨g1, _, _, _⟩ := popCtxClose (m' := .inTableBody) (ctx := tableRowContext) (cl := ["tr"])
    (wl := ["tbody", "tfoot", "thead", "template"]) hb hi
    (fun n hn => by rw [namedP_eq hn]; decide) (fun n hn => by rw [namedP_eq hn]; decide)
    (by decide) trc_cl predcl_tr (by decide) (fun d up' pr hpr hw => ⟨pr, hpr, hw⟩) e1 e3
  exact (g1.qs q4).qs q5

set_option maxHeartbeats 1600000 in
theorem modeOk_inRow : ModeOk .inRow := by
  intro tok ht r s res s' hg hm e
  have e' : stepInRow tok s = .ok (res, s') := e
  unfold stepInRow at e'
  have tbl : ∀ (hside : ∀ tag, tok = .tag tag →
      tag.isStart ["caption", "colgroup", "col", "tbody", "tfoot", "thead", "td", "th", "tr"] = false),
      stepInTable tok s = .ok (res, s') → Out r s' res := fun hside e0 =>
    stepInTable_good hg hm (Or.inr (Or.inr rfl)) (fun _ => hside) e0
  cases tok with
  | tag tag =>
    dsimp only at e'
    obtain ⟨ph, hb⟩ := hg.big hm rfl
    have unexp : ∀ s0 : State, QS s s0 → unexpected s0 = .ok (res, s') → Out r s' res := by
      intro s0 q0 e0
      obtain ⟨q, rfl⟩ := qs_unexpected e0
      exact (hg.qs q0).qs q
    -- the row is closed and the token is processed again in InTableBody
    have reproc : ∀ (s0 : State), QS s s0 → InScP tableScope (namedP "tr".toList) s0 →
        (popUntilCurrent tableRowContext >>= fun _ => popTr "mod.rs:637" >>= fun _ =>
          pure (ProcessResult.reprocess .inTableBody (.tag tag))) s0 = .ok (res, s') → Out r s' res := by
      intro s0 q0 hi e0
      obtain ⟨_, s1, e1, e2⟩ := bind_ok.mp e0
      obtain ⟨_, s2, e3, e4⟩ := bind_ok.mp e2
      obtain ⟨rfl, rfl⟩ := pure_ok.mp e4
      exact ⟨((closeRow (hb.qs q0) hi e1 e3).setMode rfl).good rfl rfl, inferInstance⟩
    rcases ite_run e' with ⟨h1, e'⟩ | ⟨h1, e'⟩
    · -- <th>, <td>
      obtain ⟨_, s1, e1, e2⟩ := bind_ok.mp e'
      obtain ⟨hb1, hm1, _, t, ht1, htw, _⟩ := popRow hb e1
      obtain ⟨el, s3, e5, e6⟩ := bind_ok.mp e2
      unfold insertElementFor at e5
      obtain ⟨a, ha, hn, _⟩ := name_of_isStart h1
      obtain ⟨hb3, _⟩ := sectionIns (m' := .inCell) (wl := ["tr", "template"]) (names := ["th", "td"])
        ⟨a, ha, hn⟩ hb1 ht1 htw (by decide) (by decide) rfl
        (fun d up e0 he0 ⟨a', ha', hn'⟩ => ⟨e0, he0, by
          rw [hn']
          simp only [List.mem_cons, List.not_mem_nil, or_false] at ha'
          rcases ha' with rfl | rfl <;> decide⟩) e5
      obtain ⟨_, s4, e7, e8⟩ := bind_ok.mp e6
      unfold setMode at e7
      obtain ⟨_, rfl⟩ := modS_ok.mp e7
      obtain ⟨_, s5, e9, e10⟩ := bind_ok.mp e8
      obtain ⟨rfl, rfl⟩ := pure_ok.mp e10
      obtain ⟨hb5, hm5, _⟩ := (inferInstance : PB pushMarker).p _ _ _ _ _ _ hb3 e9
      exact hb5.good hm5 rfl
    rcases ite_run e' with ⟨h2, e'⟩ | ⟨h2, e'⟩
    · -- </tr>
      obtain ⟨b, s1, e1, e2⟩ := bind_ok.mp e'
      unfold inScopeNamed inScopeNamedS at e1
      obtain ⟨q1, hi⟩ := inScope_inScP e1
      rcases ite_run e2 with ⟨hbt, e2⟩ | ⟨_, e2⟩
      · obtain ⟨_, s2, e3, e4⟩ := bind_ok.mp e2
        obtain ⟨_, s3, e5, e6⟩ := bind_ok.mp e4
        obtain ⟨_, s4, e7, e8⟩ := bind_ok.mp e6
        obtain ⟨rfl, rfl⟩ := pure_ok.mp e8
        unfold setMode at e7
        obtain ⟨_, rfl⟩ := modS_ok.mp e7
        exact ((closeRow (hb.qs q1) ((hi hbt).qs q1) e3 e5).setMode rfl).good rfl rfl
      · obtain ⟨_, s2, e3, e4⟩ := bind_ok.mp e2
        obtain ⟨rfl, rfl⟩ := pure_ok.mp e4
        exact (hg.qs q1).qs (qs_unexpected e3).1
    rcases ite_run e' with ⟨h3, e'⟩ | ⟨h3, e'⟩
    · obtain ⟨b, s1, e1, e2⟩ := bind_ok.mp e'
      unfold inScopeNamed inScopeNamedS at e1
      obtain ⟨q1, hi⟩ := inScope_inScP e1
      rcases ite_run e2 with ⟨hbt, e2⟩ | ⟨_, e2⟩
      · exact reproc s1 q1 ((hi hbt).qs q1) e2
      · exact unexp s1 q1 e2
    rcases ite_run e' with ⟨h4, e'⟩ | ⟨h4, e'⟩
    · obtain ⟨b0, s0, e0, e0'⟩ := bind_ok.mp e'
      have q0 : QS s s0 := by unfold inScopeNamedS at e0; exact (inScope_inScP e0).1
      rcases ite_run e0' with ⟨_, e0'⟩ | ⟨_, e0'⟩
      · obtain ⟨b, s1, e1, e2⟩ := bind_ok.mp e0'
        unfold inScopeNamed inScopeNamedS at e1
        obtain ⟨q1, hi⟩ := inScope_inScP e1
        rcases ite_run e2 with ⟨hbt, e2⟩ | ⟨_, e2⟩
        · exact reproc s1 (q0.trans q1) ((hi hbt).qs q1) e2
        · obtain ⟨rfl, rfl⟩ := pure_ok.mp e2
          exact (hg.qs q0).qs q1
      · exact unexp s0 q0 e0'
    rcases ite_run e' with ⟨h5, e'⟩ | ⟨h5, e'⟩
    · exact unexp s (QS.refl _) e'
    · refine tbl (fun tg htg => ?_) e'
      cases htg
      cases hq : tag.isStart ["caption", "colgroup", "col", "tbody", "tfoot", "thead", "td", "th", "tr"] with
      | false => rfl
      | true =>
        exfalso
        obtain ⟨a, ha, h1'⟩ := isStart_split hq
        simp only [List.mem_cons, List.not_mem_nil, or_false] at ha
        have h3' : ¬ tag.isStart ["caption", "col", "colgroup", "tbody", "tfoot", "thead", "tr"] = true := by
          intro h0; exact h3 (by rw [h0]; rfl)
        rcases ha with rfl | rfl | rfl | rfl | rfl | rfl | rfl | rfl | rfl
        · exact h3' (isStart_sub h1' (by decide))
        · exact h3' (isStart_sub h1' (by decide))
        · exact h3' (isStart_sub h1' (by decide))
        · exact h3' (isStart_sub h1' (by decide))
        · exact h3' (isStart_sub h1' (by decide))
        · exact h3' (isStart_sub h1' (by decide))
        · exact h1 (isStart_sub h1' (by decide))
        · exact h1 (isStart_sub h1' (by decide))
        · exact h3' (isStart_sub h1' (by decide))
  | nullChar => dsimp only at e'; exact tbl (by intro t h; cases h) e'
  | chars st text => dsimp only at e'; exact tbl (by intro t h; cases h) e'
  | comment c => dsimp only at e'; exact tbl (by intro t h; cases h) e'
  | eof => dsimp only at e'; exact tbl (by intro t h; cases h) e'


/-! ### InCell -/

theorem pred_tdTh : ∀ n pr, tdTh n = true → predOk n pr = true → htmlIn pr ["tr", "template"] = true := by
  intro n pr hn hp
  obtain ⟨a, ha, rfl⟩ := htmlIn_eq hn
  exact predOk_cell ha pr hp

/-- `close_the_cell` -/
theorem closeCell_big {r : Id} {ph : Phase} {s s' : State} {u : Unit} (hb : Big .inCell r ph s)
    (e : closeTheCell s = .ok (u, s')) : Big .inRow r ph s' := by
  unfold closeTheCell at e
  obtain ⟨_, s1, e1, e2⟩ := bind_ok.mp e
  obtain ⟨k, s2, e3, e4⟩ := bind_ok.mp e2
  obtain ⟨pop1, p1, hp1, _⟩ := generateImpliedEndTags_sem e1
  have hb1 : Big .inCell r ph s1 := hb.pop p1 (fun x hx => keepName_cursory (hp1 x hx))
  obtain ⟨up1, hc1, _, hn1, _⟩ := id hb1
  obtain ⟨x, hx, hxn⟩ := hn1
  obtain ⟨g1, _, _⟩ := closeP_big (m' := .inRow) (wl := ["tr", "template"]) hb1 e3
    ⟨x, by rw [hc1.stack]; exact List.mem_cons_of_mem _ hx, hxn⟩ (by decide) pred_tdTh (by decide)
    (fun d up' pr hpr hw => ⟨pr, hpr, hw⟩)
  dsimp only at e4
  rcases ite_run e4 with ⟨_, e4⟩ | ⟨_, e4⟩
  · obtain ⟨_, s3, e5, e6⟩ := bind_ok.mp e4
    exact ((inferInstance : PB clearActiveFormattingToMarker).p _ _ _ _ _ _ (g1.qs (qs_parseError e5)) e6).1
  · exact ((inferInstance : PB clearActiveFormattingToMarker).p _ _ _ _ _ _ g1 e4).1

set_option maxHeartbeats 1600000 in
theorem modeOk_inCell : ModeOk .inCell := by
  intro tok ht r s res s' hg hm e
  have e' : stepInCell tok s = .ok (res, s') := e
  unfold stepInCell at e'
  cases tok with
  | tag tag =>
    dsimp only at e'
    obtain ⟨ph, hb⟩ := hg.big hm rfl
    have unexp : ∀ s0 : State, QS s s0 → unexpected s0 = .ok (res, s') → Out r s' res := by
      intro s0 q0 e0
      obtain ⟨q, rfl⟩ := qs_unexpected e0
      exact (hg.qs q0).qs q
    have reproc : ∀ (s0 : State), QS s s0 →
        (closeTheCell >>= fun _ => pure (ProcessResult.reprocess .inRow (.tag tag))) s0 = .ok (res, s') →
        Out r s' res := by
      intro s0 q0 e0
      obtain ⟨_, s1, e1, e2⟩ := bind_ok.mp e0
      obtain ⟨rfl, rfl⟩ := pure_ok.mp e2
      exact ⟨((closeCell_big (hb.qs q0) e1).setMode rfl).good rfl rfl, inferInstance⟩
    rcases ite_run e' with ⟨h1, e'⟩ | ⟨h1, e'⟩
    · -- </td>, </th>
      obtain ⟨b, s1, e1, e2⟩ := bind_ok.mp e'
      unfold inScopeNamedS at e1
      obtain ⟨q1, hi⟩ := inScope_inScP e1
      obtain ⟨a, ha, hn, _⟩ := name_of_isEnd h1
      rcases ite_run e2 with ⟨hbt, e2⟩ | ⟨_, e2⟩
      · obtain ⟨_, s2, e3, e4⟩ := bind_ok.mp e2
        obtain ⟨_, s3, e5, e6⟩ := bind_ok.mp e4
        obtain ⟨_, s4, e7, e8⟩ := bind_ok.mp e6
        obtain ⟨_, s5, e9, e10⟩ := bind_ok.mp e8
        obtain ⟨rfl, rfl⟩ := pure_ok.mp e10
        unfold setMode at e9
        obtain ⟨_, rfl⟩ := modS_ok.mp e9
        have hxa : (⟨nsHtml, tag.name⟩ : EName) = hN a := by rw [hn]; rfl
        obtain ⟨hb3, _, _⟩ := closeImplied_big (m' := .inRow) (wl := ["tr", "template"]) (hb.qs q1)
          ((hi hbt).qs q1).named
          (by
            rw [hxa]
            simp only [List.mem_cons, List.not_mem_nil, or_false] at ha
            rcases ha with rfl | rfl <;> decide)
          (by
            rw [hxa]
            simp only [List.mem_cons, List.not_mem_nil, or_false] at ha
            rcases ha with rfl | rfl <;> decide) e3 e5
          (fun pr hp => by rw [hxa] at hp; exact predOk_cell ha pr hp)
          (by decide) (fun d up' pr hpr hw => ⟨pr, hpr, hw⟩)
        obtain ⟨hb4, _, _⟩ := (inferInstance : PB clearActiveFormattingToMarker).p _ _ _ _ _ _ hb3 e7
        exact (hb4.setMode rfl).good rfl rfl
      · obtain ⟨_, s2, e3, e4⟩ := bind_ok.mp e2
        obtain ⟨rfl, rfl⟩ := pure_ok.mp e4
        exact (hg.qs q1).qs (qs_unexpected e3).1
    rcases ite_run e' with ⟨h2, e'⟩ | ⟨h2, e'⟩
    · obtain ⟨b, s1, e1, e2⟩ := bind_ok.mp e'
      obtain ⟨q1, _⟩ := inScope_inScP (P := tdTh) e1
      rcases ite_run e2 with ⟨hbt, e2⟩ | ⟨_, e2⟩
      · exact reproc s1 q1 e2
      · exact unexp s1 q1 e2
    rcases ite_run e' with ⟨h3, e'⟩ | ⟨h3, e'⟩
    · exact unexp s (QS.refl _) e'
    rcases ite_run e' with ⟨h4, e'⟩ | ⟨h4, e'⟩
    · obtain ⟨b, s1, e1, e2⟩ := bind_ok.mp e'
      unfold inScopeNamedS at e1
      obtain ⟨q1, _⟩ := inScope_inScP e1
      rcases ite_run e2 with ⟨hbt, e2⟩ | ⟨_, e2⟩
      · exact reproc s1 q1 e2
      · exact unexp s1 q1 e2
    · refine stepInBody_good2 hg hm rfl (fun tg htg => ?_) e'
      cases htg
      refine genEnd_of (fun a ha => ?_)
      have h1' := bool_false_of_not h1
      have h3' := bool_false_of_not h3
      have h4' := bool_false_of_not h4
      simp only [List.mem_cons, List.not_mem_nil, or_false] at ha
      rcases ha with rfl | rfl | rfl | rfl | rfl | rfl | rfl | rfl | rfl | rfl | rfl
      · exact isEnd_single_false h3' (by simp)
      · exact isEnd_single_false h4' (by simp)
      · exact isEnd_single_false h3' (by simp)
      · exact isEnd_single_false h3' (by simp)
      · exact isEnd_single_false h4' (by simp)
      · exact isEnd_single_false h1' (by simp)
      · exact isEnd_single_false h4' (by simp)
      · exact isEnd_single_false h1' (by simp)
      · exact isEnd_single_false h4' (by simp)
      · exact isEnd_single_false h4' (by simp)
      · exact isEnd_single_false h3' (by simp)
  | nullChar => dsimp only at e'; exact stepInBody_good2 hg hm rfl (by intro t h; cases h) e'
  | chars st text => dsimp only at e'; exact stepInBody_good2 hg hm rfl (by intro t h; cases h) e'
  | comment c => dsimp only at e'; exact stepInBody_good2 hg hm rfl (by intro t h; cases h) e'
  | eof => dsimp only at e'; exact stepInBody_good2 hg hm rfl (by intro t h; cases h) e'


/-! ### InTemplate -/

theorem setTemplateMode_good {r : Id} {ph : Phase} {s s1 : State} {m' : Mode} {u : Unit}
    (hb : Big .inTemplate r ph s) (hm' : tmplModeOk m' = true) (e : setTemplateMode m' s = .ok (u, s1)) :
    Good r { s1 with mode := m' } := by
  unfold setTemplateMode at e
  obtain ⟨_, rfl⟩ := modS_ok.mp e
  obtain ⟨up, hc, hbb, hn, _⟩ := hb
  obtain ⟨x, hx, hxn⟩ := hn
  have hxt : nm s.dom x = hN "template" := by
    obtain ⟨a, ha, heq⟩ := htmlIn_eq hxn
    simp only [List.mem_cons, List.not_mem_nil, or_false] at ha
    subst ha; exact heq
  obtain ⟨hbl, hneed⟩ := need_of_tmplMode (d := s.dom) hm' hx hxt
  have hc1 := hc.setTM (tm := s.templateModes.dropLast ++ [m'])
    (by
      intro m hm
      rcases List.mem_append.mp hm with h | h
      · exact hc.tmm m (List.dropLast_subset _ h)
      · simp at h; subst h; exact hm')
    (by
      have := hc.tc
      rw [List.length_append, List.length_dropLast]
      simp
      omega)
  have hc2 := hc1.modes (m' := m') (om' := s.origMode) (isLate_of_bl hbl) hc.late.ml.orig
  exact Good.mk' (up := up) (ph := ph) ⟨hc2, fitsM_of_bl hbl rfl (fits_of_bl hbl hbb hneed)⟩

set_option maxHeartbeats 1600000 in
theorem modeOk_inTemplate : ModeOk .inTemplate := by
  intro tok ht r s res s' hg hm e
  have e' : stepInTemplate tok s = .ok (res, s') := e
  unfold stepInTemplate at e'
  obtain ⟨ph, hb⟩ := hg.big hm rfl
  have re : ∀ m' : Mode, tmplModeOk m' = true → ∀ t : Token, TokW t →
      (setTemplateMode m' >>= fun _ => pure (ProcessResult.reprocess m' t)) s = .ok (res, s') → Out r s' res := by
    intro m' hm' t htw e0
    obtain ⟨_, s1, e1, e2⟩ := bind_ok.mp e0
    obtain ⟨rfl, rfl⟩ := pure_ok.mp e2
    exact ⟨setTemplateMode_good hb hm' e1, htw⟩
  cases tok with
  | chars st text => dsimp only at e'; exact stepInBody_good2 hg hm rfl (by intro t h; cases h) e'
  | comment c => dsimp only at e'; exact stepInBody_good2 hg hm rfl (by intro t h; cases h) e'
  | eof => dsimp only at e'; exact (inferInstance : RB inTemplateEof).good hg hm rfl e'
  | nullChar =>
    dsimp only at e'
    obtain ⟨q, rfl⟩ := qs_unexpected e'
    exact hg.qs q
  | tag tag =>
    dsimp only at e'
    rcases ite_run e' with ⟨h1, e'⟩ | ⟨h1, e'⟩
    · exact (rb_headTags tag h1).good hg hm rfl e'
    rcases ite_run e' with ⟨h2, e'⟩ | ⟨h2, e'⟩
    · exact re .inTable rfl _ inferInstance e'
    rcases ite_run e' with ⟨h3, e'⟩ | ⟨h3, e'⟩
    · exact re .inColumnGroup rfl _ inferInstance e'
    rcases ite_run e' with ⟨h4, e'⟩ | ⟨h4, e'⟩
    · exact re .inTableBody rfl _ inferInstance e'
    rcases ite_run e' with ⟨h5, e'⟩ | ⟨h5, e'⟩
    · exact re .inRow rfl _ inferInstance e'
    rcases ite_run e' with ⟨h6, e'⟩ | ⟨h6, e'⟩
    · exact re .inBody rfl _ inferInstance e'
    · obtain ⟨q, rfl⟩ := qs_unexpected e'
      exact hg.qs q

/-! ### the end of the input in the table modes -/

theorem eofOk_inTable : EofOk .inTable := by
  intro r s res s' hg hm e
  have e' : stepInTable .eof s = .ok (res, s') := e
  unfold stepInTable at e'
  exact eof_bl hg (by rw [hm]; rfl) e'

theorem eofOk_inCaption : EofOk .inCaption := by
  intro r s res s' hg hm e
  have e' : stepInCaption .eof s = .ok (res, s') := e
  unfold stepInCaption at e'
  exact eof_bl hg (by rw [hm]; rfl) e'

theorem eofOk_inColumnGroup : EofOk .inColumnGroup := by
  intro r s res s' hg hm e
  have e' : stepInColumnGroup .eof s = .ok (res, s') := e
  unfold stepInColumnGroup at e'
  exact eof_bl hg (by rw [hm]; rfl) e'

theorem eofOk_inTableBody : EofOk .inTableBody := by
  intro r s res s' hg hm e
  have e' : stepInTableBody .eof s = .ok (res, s') := e
  unfold stepInTableBody at e'
  dsimp only at e'
  unfold stepInTable at e'
  exact eof_bl hg (by rw [hm]; rfl) e'

theorem eofOk_inRow : EofOk .inRow := by
  intro r s res s' hg hm e
  have e' : stepInRow .eof s = .ok (res, s') := e
  unfold stepInRow at e'
  dsimp only at e'
  unfold stepInTable at e'
  exact eof_bl hg (by rw [hm]; rfl) e'

theorem eofOk_inCell : EofOk .inCell := by
  intro r s res s' hg hm e
  have e' : stepInCell .eof s = .ok (res, s') := e
  unfold stepInCell at e'
  exact eof_bl hg (by rw [hm]; rfl) e'

theorem eofOk_inTemplate : EofOk .inTemplate := by
  intro r s res s' hg hm e
  have e' : stepInTemplate .eof s = .ok (res, s') := e
  unfold stepInTemplate at e'
  dsimp only at e'
  obtain ⟨ph, hb⟩ := hg.big hm rfl
  obtain ⟨up, hc, hbs⟩ := hb.base
  rcases inTemplateEof_sem hc hbs e' with ⟨rfl, q⟩ | ⟨m', rfl, _⟩
  · -- no template on the stack: impossible in this mode
    exfalso
    obtain ⟨up2, hc2, _, hn, _⟩ := hb
    obtain ⟨x, hx, hxn⟩ := hn
    unfold inTemplateEof at e'
    obtain ⟨b, s1, e1, e2⟩ := bind_ok.mp e'
    obtain ⟨q1, hb1⟩ := inHtmlElemNamed_sem e1
    have hbt : b = true := hb1.mpr ⟨x, by rw [hc2.stack]; exact List.mem_cons_of_mem _ hx, by
      obtain ⟨a, ha, heq⟩ := htmlIn_eq hxn
      simp only [List.mem_cons, List.not_mem_nil, or_false] at ha
      subst ha; rw [heq]; decide⟩
    subst hbt
    simp only [Bool.not_true, Bool.false_eq_true, if_false] at e2
    obtain ⟨_, _, _, e3⟩ := bind_ok.mp e2
    obtain ⟨_, _, _, e4⟩ := bind_ok.mp e3
    obtain ⟨_, _, _, e5⟩ := bind_ok.mp e4
    obtain ⟨_, _, _, e6⟩ := bind_ok.mp e5
    obtain ⟨_, _, _, e7⟩ := bind_ok.mp e6
    obtain ⟨_, _, _, e8⟩ := bind_ok.mp e7
    obtain ⟨_, _, _, e9⟩ := bind_ok.mp e8
    obtain ⟨h0, _⟩ := pure_ok.mp e9
    cases h0
  · exact Or.inr ⟨_, rfl⟩

theorem eofOk_inTableText : EofOk .inTableText := by
  intro r s res s' hg hm e
  have hout := modeOk_inTableText .eof inferInstance r s res s' hg hm e
  have e' : stepInTableText .eof s = .ok (res, s') := e
  unfold stepInTableText at e'
  dsimp only at e'
  rw [getS_bind] at e'
  obtain ⟨_, s1, e1, e2⟩ := bind_ok.mp e'
  have fin : ∀ s2 : State,
      (getS >>= fun s => match s.origMode with
        | none => panicAt "unwrap-none" "rules.rs:1172" "orig_mode.take().unwrap()"
        | some m => set { s with origMode := none } >>= fun _ => pure (ProcessResult.reprocess m Token.eof)) s2
        = .ok (res, s') → ∃ m', res = .reprocess m' .eof := by
    intro s2 e4
    rw [getS_bind] at e4
    cases ho : s2.origMode with
    | none => rw [ho] at e4; exact absurd e4 panicAt_ok
    | some m =>
      rw [ho] at e4
      dsimp only at e4
      obtain ⟨_, _, _, e6⟩ := bind_ok.mp e4
      obtain ⟨rfl, _⟩ := pure_ok.mp e6
      exact ⟨_, rfl⟩
  rcases ite_run e2 with ⟨_, e2⟩ | ⟨_, e2⟩
  · obtain ⟨_, _, _, e6⟩ := bind_ok.mp e2
    obtain ⟨_, s2, _, e8⟩ := bind_ok.mp e6
    exact Or.inr (fin s2 e8)
  · obtain ⟨_, s2, _, e8⟩ := bind_ok.mp e2
    exact Or.inr (fin s2 e8)

end H5V.Props.C06
