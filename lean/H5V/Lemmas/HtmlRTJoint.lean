import H5V.Lemmas.HtmlRTPure
/-!
C07 round trip, part 6: the tokenizer with the tree builder as its sink (`Joint.run` /
`Joint.feed` / `Joint.finish` of `H5V.Model.HtmlTB`), fragment case with an HTML `div` as context.
-/
namespace H5V.Lemmas.HtmlRT
open H5V.Model.HtmlTok
open H5V.Model.HtmlTB.Joint
open H5V.Lemmas.HtmlTBSpec (withTr)

abbrev TBState := H5V.Model.HtmlTB.State

/-- the driver of `Joint.run` as a `Sink`: the tokens a step emitted are delivered to the tree
builder and `Mach.out` is emptied -/
def jSink : Sink JState where
  pol := polOf
  hook := fun m j =>
    match absorb m.out.reverse j with
    | .ok j' => some ({ m with out := [] }, j')
    | .error _ => none

theorem TBInv.withTr {s : TBState} {L T tp tid} (h : TBInv s L T tp tid) (tr) : TBInv (withTr s tr) L T tp tid :=
  ⟨h.low, h.topNode, h.topRep, h.size, h.stack, h.ctxNode, h.ctx, h.mode, h.tm, ⟨h.afi.ent, h.afi.sorted⟩, h.foster, h.form, h.ilf,
    h.notTemplate, h.errs, h.notP⟩

theorem withTr_self (s : TBState) : withTr s s.traceRev = s := by cases s; rfl

/-- delivering one token that the tree builder answers with `Continue` -/
theorem absorb_one (j : JState) (t : TokTok) (ln : Nat) (tt : H5V.Model.HtmlTB.TokToken) (s' : TBState)
    (hconv : conv t = some tt) (hr : Runs (H5V.Model.HtmlTB.processToken tt ln) j.tb .continue_ s') :
    ∃ j' tr, absorb [(t, ln)] j = .ok j' ∧ j'.tb = withTr s' tr := by
  obtain ⟨tr', e⟩ := hr j.tb.traceRev
  rw [withTr_self] at e
  refine ⟨{ j with tb := withTr s' tr', results := j.results, nTokens := j.nTokens + 1,
                   nEof := j.nEof + (if tt == .eof then 1 else 0), lastWasEof := tt == .eof }, tr', ?_, rfl⟩
  simp only [absorb, hconv, e]
  simp

def jInv (L : List Frame) (T : Frame) (j : JState) (out : Out) : Prop :=
  out = [] ∧ ∃ tp tid, TBInv j.tb L T tp tid

theorem convTag_start (n : Str) (as : List (Str × Str)) : convTag (tokStart n as) = tbStart n as := by
  simp [convTag, tokStart, tbStart, tbAttrs, List.map_map, Function.comp_def]

theorem convTag_end (n : Str) : convTag (tokEnd n) = tbEnd n := rfl

theorem hook_of_absorb (m1 : Mach) (j j' : JState) (h : absorb m1.out.reverse j = .ok j') :
    jSink.hook m1 j = some ({ m1 with out := [] }, j') := by
  simp [jSink, h]

theorem polOf_continue (j : JState) (tag : Tag) (s' : TBState)
    (hr : Runs (H5V.Model.HtmlTB.processToken (.tag (convTag tag)) 1) j.tb .continue_ s') :
    (polOf j).onTag [] tag = .continue_ := by
  obtain ⟨tr', e⟩ := hr j.tb.traceRev
  rw [withTr_self] at e
  simp [polOf, absorb, e, toSinkRes]

def jSpec (o : Opts) : SinkSpec o jSink where
  Inv := jInv
  core := by
    intro m1 s m1' s1 h
    simp only [jSink] at h
    split at h
    · simp only [Option.some.injEq, Prod.mk.injEq] at h; rw [← h.1]; rfl
    · cases h
  silent := by
    intro L T s out m1 ⟨ho, hi⟩ hm
    subst ho
    refine ⟨_, s, hook_of_absorb m1 s s (by rw [hm]; rfl), rfl, hi⟩
  char := by
    intro L T s out m1 c ln ⟨ho, tp, tid, hi⟩ hm
    subst ho
    obtain ⟨s', hr, hi'⟩ := hi.chars [c] (by simp)
    obtain ⟨j', tr, ha, htb⟩ := absorb_one s (.chars [c]) ln (.chars [c]) s' rfl (hr ln)
    refine ⟨_, j', hook_of_absorb m1 s j' (by rw [hm]; exact ha), rfl, tp, tid, ?_⟩
    rw [htb]; exact hi'.withTr tr
  startPol := by
    intro L T s out n as ⟨ho, tp, tid, hi⟩ hn
    subst ho
    obtain ⟨s', hr, _⟩ := hi.startTagAny n as hn
    exact polOf_continue s _ s' (by rw [convTag_start]; exact hr 1)
  start := by
    intro L T s out m1 n as ln ⟨ho, tp, tid, hi⟩ hn hm
    subst ho
    obtain ⟨s', hr, hi'⟩ := hi.startTagAny n as hn
    obtain ⟨j', tr, ha, htb⟩ := absorb_one s (.tag (tokStart n as)) ln (.tag (tbStart n as)) s'
      (by simp [conv, convTag_start]) (hr ln)
    refine ⟨_, j', hook_of_absorb m1 s j' (by rw [hm]; exact ha), rfl, tid, s.tb.dom.nodes.size, ?_⟩
    rw [htb]; exact hi'.withTr tr
  endPol := by
    intro L P n as cs s out ⟨ho, tp, tid, hi⟩ hn
    subst ho
    obtain ⟨s', _, _, hr, _⟩ := hi.endTagAny hn
    exact polOf_continue s _ s' (by rw [convTag_end]; exact hr 1)
  end_ := by
    intro L P n as cs s out m1 ln ⟨ho, tp, tid, hi⟩ hn hm
    subst ho
    obtain ⟨s', tp0, tid0, hr, hi'⟩ := hi.endTagAny hn
    obtain ⟨j', tr, ha, htb⟩ := absorb_one s (.tag (tokEnd n)) ln (.tag (tbEnd n)) s'
      (by simp [conv, convTag_end]) (hr ln)
    refine ⟨_, j', hook_of_absorb m1 s j' (by rw [hm]; exact ha), rfl, tp0, tid0, ?_⟩
    rw [htb]; exact hi'.withTr tr

theorem hook_inv {m1 : Mach} {j : JState} {m1' : Mach} {j1 : JState} (h : jSink.hook m1 j = some (m1', j1)) :
    absorb m1.out.reverse j = .ok j1 ∧ m1' = { m1 with out := [] } := by
  simp only [jSink] at h
  split at h
  · rename_i j' hj
    simp only [Option.some.injEq, Prod.mk.injEq] at h
    exact ⟨by rw [hj, h.2], h.1.symm⟩
  · cases h

theorem jrun_cont (o : Opts) (fuel : Nat) (m : Mach) (inp : Str) (j : JState) (m1 : Mach) (i1 : Str) (j1 : JState)
    (hs : step o (polOf j) m inp = .cont m1 i1) (ha : absorb m1.out.reverse j = .ok j1) :
    H5V.Model.HtmlTB.Joint.run o (fuel + 1) m inp j = H5V.Model.HtmlTB.Joint.run o fuel { m1 with out := [] } i1 j1 := by
  rw [H5V.Model.HtmlTB.Joint.run]
  simp only [hs, ha]

theorem jrun_suspend (o : Opts) (fuel : Nat) (m : Mach) (inp : Str) (j : JState) (m1 : Mach) (i1 : Str) (j1 : JState)
    (hs : step o (polOf j) m inp = .suspend m1 i1) (ha : absorb m1.out.reverse j = .ok j1) :
    H5V.Model.HtmlTB.Joint.run o (fuel + 1) m inp j = H5V.Model.HtmlTB.Joint.RunRes.done { m1 with out := [] } i1 j1 := by
  rw [H5V.Model.HtmlTB.Joint.run]
  simp only [hs, ha]

/-- the steps of a `GSteps` chain against `jSink` are iterations of `H5V.Model.HtmlTB.Joint.run` -/
theorem gsteps_joint_run (o : Opts) {m inp j toks m' inp' j'}
    (h : GSteps o jSink m inp j toks m' inp' j') :
    ∃ k, (∀ fuel, H5V.Model.HtmlTB.Joint.run o (fuel + k) m inp j = H5V.Model.HtmlTB.Joint.run o fuel m' inp' j') ∧
      (TInv m → TInv m' ∧ mu m' inp' + k ≤ mu m inp) := by
  induction h with
  | refl m inp s => exact ⟨0, fun _ => rfl, fun hi => ⟨hi, by omega⟩⟩
  | @silent m inp s m1 i1 m1' s1 toks m' i' s' hs hh _ ih =>
    obtain ⟨k, h1, h3⟩ := ih
    obtain ⟨ha, hm⟩ := hook_inv hh
    subst hm
    have hstep : step o (polOf s) m inp = .cont m1 i1 := hs.1
    refine ⟨k + 1, ?_, ?_⟩
    · intro fuel
      show H5V.Model.HtmlTB.Joint.run o ((fuel + k) + 1) m inp s = _
      rw [jrun_cont o _ m inp s m1 i1 s1 hstep ha]; exact h1 fuel
    · intro hi
      have hi1 := step_tinv o (polOf s) m inp hi m1 i1 (by rw [hstep]; rfl)
      have hd := step_dec o (polOf s) m inp hi m1 i1 hstep
      have hc : SameCore m1 { m1 with out := [] } := rfl
      obtain ⟨a, b⟩ := h3 (TInv.core hi1 hc)
      rw [mu_core hc] at b
      exact ⟨a, by omega⟩
  | @emit m inp s t m1 i1 m1' s1 toks m' i' s' hs hh _ ih =>
    obtain ⟨k, h1, h3⟩ := ih
    obtain ⟨ha, hm⟩ := hook_inv hh
    subst hm
    have hstep : step o (polOf s) m inp = .cont m1 i1 := hs.1
    refine ⟨k + 1, ?_, ?_⟩
    · intro fuel
      show H5V.Model.HtmlTB.Joint.run o ((fuel + k) + 1) m inp s = _
      rw [jrun_cont o _ m inp s m1 i1 s1 hstep ha]; exact h1 fuel
    · intro hi
      have hi1 := step_tinv o (polOf s) m inp hi m1 i1 (by rw [hstep]; rfl)
      have hd := step_dec o (polOf s) m inp hi m1 i1 hstep
      have hc : SameCore m1 { m1 with out := [] } := rfl
      obtain ⟨a, b⟩ := h3 (TInv.core hi1 hc)
      rw [mu_core hc] at b
      exact ⟨a, by omega⟩

/-- a chain ending with the tokenizer asking for more input: `H5V.Model.HtmlTB.Joint.run` returns `Done` there -/
theorem jrun_of_gsteps (o : Opts) {m inp j toks m' j'}
    (h : GSteps o jSink m inp j toks m' [] j') (hout : m'.out = [])
    (hsus : ∀ pol, step o pol m' [] = .suspend m' [])
    (hi : TInv m) (F : Nat) (hF : mu m inp < F) :
    H5V.Model.HtmlTB.Joint.run o F m inp j = H5V.Model.HtmlTB.Joint.RunRes.done m' [] j' := by
  obtain ⟨k, h1, h3⟩ := gsteps_joint_run o h
  obtain ⟨_, hmu⟩ := h3 hi
  obtain ⟨n, hn⟩ : ∃ n, F = (n + 1) + k := ⟨F - k - 1, by omega⟩
  rw [hn, h1 (n + 1), jrun_suspend o n m' [] j' m' [] j' (hsus _) (by rw [hout]; rfl)]
  congr 1
  cases m'; simp_all

/-! ### `Tokenizer::end` + `TreeBuilder::end` -/

theorem absorb_nil (j : JState) : absorb [] j = .ok j := rfl

/-- the part of `Joint.finish` after the character-reference hand-back -/
def finishTail (o : Opts) (m : Mach) (inp : Str) (j : JState) : Except String JState := do
  let m := m.setAtEof true
  match H5V.Model.HtmlTB.Joint.run o (H5V.Model.HtmlTok.fuelFor m inp) m inp j with
  | .done m inp j =>
    if !inp.isEmpty then throw "assert@tokenizer/mod.rs: assertion failed: input.is_empty()"
    match H5V.Model.HtmlTok.eofLoop o 8 m with
    | .error e => throw ("tokenizer@tokenizer: " ++ e)
    | .ok m =>
      let j ← absorb m.out.reverse j
      match H5V.Model.HtmlTB.finishTB.run j.tb with
      | .error e => throw e
      | .ok (_, tb) => pure { j with tb := tb }
  | .script _ _ _ | .indicator _ _ _ =>
    throw "assert@tokenizer/mod.rs: matches!(self.run(&input), TokenizerResult::Done)"
  | .panic e => throw e

theorem finish_none (o : Opts) (m : Mach) (j : JState) (h : m.charRef = none) :
    H5V.Model.HtmlTB.Joint.finish o m j = finishTail o m [] j := by
  unfold H5V.Model.HtmlTB.Joint.finish finishTail
  simp only [h, pure_bind]
  rfl

/-- from the data state with nothing pending and only the root open: EOF is delivered, the stack is
popped, the forest is in the arena -/
theorem joint_finish_idle (o : Opts) (ho : o.exactErrors = false) (m : Mach) (j : JState) (cs : Forest)
    (tp tid : Nat) (h : Ctl m .data) (hout : m.out = []) (hi : TBInv j.tb [] (rootFrame cs) tp tid) :
    ∃ j2, finishTail o m [] j = .ok j2 ∧ rootChildren j2.tb.dom = some (toDTreeF cs) ∧
      j2.tb.dom.errorsRev = [] := by
  have h' := h.setAtEof true
  obtain ⟨n, hn⟩ := fuelFor_pos (m.setAtEof true) []
  have hout' : (m.setAtEof true).out = [] := hout
  -- the EOF token
  obtain ⟨j1, tr1, ha1, htb1⟩ := absorb_one j .eof m.line .eof j.tb rfl (hi.eof m.line)
  have hi1 : TBInv j1.tb [] (rootFrame cs) tp tid := by rw [htb1]; exact hi.withTr tr1
  -- `TreeBuilder::end`
  obtain ⟨tr2, e2⟩ := finishTB_runs j1.tb j1.tb.traceRev
  rw [withTr_self] at e2
  refine ⟨{ j1 with tb := withTr { j1.tb with openElems := [] } tr2 }, ?_, ?_⟩
  · unfold finishTail
    simp only []
    rw [hn, jrun_suspend o n _ [] j _ [] j (data_suspend o ho _ _ h') (by rw [hout']; rfl)]
    simp only [bind, Except.bind, pure, Except.pure, List.isEmpty_nil, Bool.not_true, Bool.false_eq_true, if_false]
    rw [eofLoop_data o _ (by exact h'.st)]
    simp only [emit, Mach.setAtEof, List.reverse_cons, List.reverse_nil, List.nil_append]
    rw [ha1]
    simp only [e2]
  · have : (withTr { j1.tb with openElems := [] } tr2).dom = j1.tb.dom := rfl
    rw [this]
    exact ⟨hi1.rootChildren_eq, hi1.errs⟩

/-- inside a fully read reference for the last character of the last text node -/
theorem joint_finish_pending (o : Opts) (ho : o.exactErrors = false) (m : Mach) (j : JState) (cr : CharRefSt)
    (nm : Str) (v : Nat) (cs' cs : Forest) (tp tid : Nat)
    (h : CRCtl m .data cr) (hd : CRDone cr nm v) (hr : RefOk nm v) (hout : m.out = [])
    (hi : TBInv j.tb [] (rootFrame cs') tp tid) (hcs : appendTextF cs' [Char.ofNat v] = cs) :
    ∃ j2, H5V.Model.HtmlTB.Joint.finish o m j = .ok j2 ∧ rootChildren j2.tb.dom = some (toDTreeF cs) ∧
      j2.tb.dom.errorsRev = [] := by
  obtain ⟨s1, s2, s3, s4, s5⟩ := h
  let m1 := (emitChar ((m.setIgnoreLf false).setCharRef none) (Char.ofNat v))
  have hc1 : Ctl { m1 with out := [] } .data := by
    constructor <;> simp [m1, Mach.setIgnoreLf, Mach.setCharRef, emitChar, emit, hr.nz, *]
  have hm1out : m1.out = [(.chars [Char.ofNat v], m.line)] := by
    simp [m1, emitChar, emit, hr.nz, Mach.setIgnoreLf, Mach.setCharRef, hout]
  -- the character token
  obtain ⟨s', hrun, hi'⟩ := hi.chars [Char.ofNat v] (by simp)
  obtain ⟨j1, tr1, ha1, htb1⟩ := absorb_one j (.chars [Char.ofNat v]) m.line (.chars [Char.ofNat v]) s' rfl
    (hrun m.line)
  have hi1 : TBInv j1.tb [] (rootFrame cs) tp tid := by
    rw [htb1]
    have := hi'.withTr tr1
    simp only [rootFrame] at this ⊢
    rw [hcs] at this
    exact this
  obtain ⟨j2, hfin, hroot⟩ := joint_finish_idle o ho { m1 with out := [] } j1 cs tp tid hc1 rfl hi1
  refine ⟨j2, ?_, hroot⟩
  rw [← hfin]
  unfold H5V.Model.HtmlTB.Joint.finish
  simp only [s2, crEof_done o m cr nm v hd hr.ne hr.semi hr.valid]
  have : processCharRef ((m.setIgnoreLf false).setCharRef none) [Char.ofNat v] = (m1, .cont) := by
    simp [processCharRef, Mach.setIgnoreLf, Mach.setCharRef, s1, m1]
  simp only [this, hm1out, List.reverse_cons, List.reverse_nil, List.nil_append, ha1, bind, Except.bind, pure,
    Except.pure]
  rfl

/-! ### the fragment parser -/

open H5V.Model.HtmlTB in
/-- `parse_fragment`'s set-up, then `tokenizer_state_for_context_elem` -/
def fragStart (allowsScripting : Bool) : M H5V.Model.HtmlTok.State := do
  fragSetup
  tokenizerStateForContextElem allowsScripting

theorem divTests2 :
    H5V.Model.HtmlTB.isOneOf nDiv ["title", "textarea"] = false ∧
    H5V.Model.HtmlTB.isOneOf nDiv ["style", "xmp", "iframe", "noembed", "noframes"] = false ∧
    H5V.Model.HtmlTB.isName nDiv "script" = false ∧ H5V.Model.HtmlTB.isName nDiv "noscript" = false ∧
    H5V.Model.HtmlTB.isName nDiv "plaintext" = false := by decide

open H5V.Model.HtmlTB in
theorem fragStart_runs (opts : H5V.Model.HtmlTB.Opts) (cs : Bool) :
    ∃ s0, Runs (fragStart cs) (State.init opts) .data s0 ∧ TBInv s0 [] (rootFrame []) 0 2 := by
  obtain ⟨s0, hr, hi, _⟩ := fragSetup_runs opts
  obtain ⟨t1, t2, t3, t4, t5⟩ := divTests2
  refine ⟨s0, ?_, hi⟩
  unfold fragStart
  refine runs_bind hr (Runs.of_query ?_)
  unfold tokenizerStateForContextElem
  refine H5V.Lemmas.HtmlTBSpec.query_getS_bind (fun tr => ?_)
  simp only [withTr_contextElem, hi.ctx]
  refine H5V.Lemmas.HtmlTBSpec.query_bind
    (H5V.Lemmas.HtmlTBSpec.query_elemName (elData_elemName hi.ctxNode)) ?_
  simp only [bne_self_eq_false, Bool.false_eq_true, if_false, t1, t2, t3, t4, t5]
  exact H5V.Lemmas.HtmlTBSpec.query_pure _ _

/-- what `Parser::finish` does with the result of the last `feed`: the queue must be empty, then
`Tokenizer::end`; the result is the DOM arena -/
def afterFeed (o : Opts) : H5V.Model.HtmlTB.Joint.RunRes → Except String H5V.Model.Dom.Dom
  | .done m [] j => (H5V.Model.HtmlTB.Joint.finish o m j).map (·.tb.dom)
  | .done _ _ _ => .error "input left over"
  | .script _ _ _ => .error "script pause"
  | .indicator _ _ _ => .error "encoding indicator pause"
  | .panic e => .error e

/-- the fragment parser on one chunk of input: set-up with an HTML `div` context element, the
tokenizer state that context asks for, `Tokenizer::feed` of the whole input with the tree builder as
sink, `Tokenizer::end` (which ends the tree builder); the result is the DOM arena -/
def parseFragmentDiv (opts : H5V.Model.HtmlTB.Opts) (allowsScripting : Bool) (o : Opts) (input : Str) :
    Except String H5V.Model.Dom.Dom :=
  match (fragStart allowsScripting).run (H5V.Model.HtmlTB.State.init opts) with
  | .error e => .error e
  | .ok (st, tb) => afterFeed o (H5V.Model.HtmlTB.Joint.feed o { state := st } [] input { tb := tb })

/-- **Layer 4.**  Parsing the serialisation of an ordinary forest as a fragment (context `div`)
yields an arena in which the children of the root element are the forest, and no parse error is
reported to the sink (neither by the tokenizer nor by the tree builder) — for every tree-builder
option set (scripting on or off, …), `exact_errors` off. -/
theorem joint_roundtrip (opts : H5V.Model.HtmlTB.Opts) (cs : Bool) (o : Opts) (ho : o.exactErrors = false)
    (f : Forest) (hord : Ordinary f) (hbom : noLeadingBom (renderF f)) :
    ∃ d, parseFragmentDiv opts cs o (renderF f) = .ok d ∧ rootChildren d = some (toDTreeF f) ∧
      d.errorsRev = [] := by
  obtain ⟨hok, hadj⟩ := hord
  obtain ⟨s0, hrun0, hi0⟩ := fragStart_runs opts cs
  obtain ⟨tr0, e0⟩ := hrun0 (H5V.Model.HtmlTB.State.init opts).traceRev
  rw [withTr_self] at e0
  have hi0' := hi0.withTr tr0
  unfold parseFragmentDiv
  simp only [e0]
  have hm0 : ({ state := State.data } : Mach) = mach0 := rfl
  rw [hm0]
  generalize hj0 : ({ tb := withTr s0 tr0 } : JState) = j0
  have hi0' : TBInv j0.tb [] (rootFrame []) 0 2 := by rw [← hj0]; exact hi0'
  by_cases hnil : renderF f = []
  · have hf := renderF_eq_nil hok hnil
    subst hf
    obtain ⟨j2, hfin, hroot⟩ := joint_finish_idle o ho mach0 j0 [] 0 2 (by constructor <;> rfl) rfl hi0'
    rw [← finish_none o mach0 j0 rfl] at hfin
    refine ⟨j2.tb.dom, ?_, hroot⟩
    simp [H5V.Model.HtmlTB.Joint.feed, renderF, hfin, Except.map, afterFeed]
  · have hfeed : H5V.Model.HtmlTB.Joint.feed o mach0 [] (renderF f) j0 =
        H5V.Model.HtmlTB.Joint.run o (fuelFor (mach0.setDiscardBom false) (renderF f))
          (mach0.setDiscardBom false) (renderF f) j0 := by
      unfold H5V.Model.HtmlTB.Joint.feed
      simp only [List.nil_append, List.isEmpty_iff, hnil, if_false]
      rw [feedBom_noBom mach0 _ hbom rfl hnil]
    rw [hfeed]
    have hmu := mu_lt_fuelFor (mach0.setDiscardBom false) (renderF f)
    have hinv0 : (jSpec o).Inv [] (rootFrame []) j0 (mach0.setDiscardBom false).out := ⟨rfl, 0, 2, hi0'⟩
    have top := seg_top (jSpec o) ho [] (rootFrame []) f hok (by simpa [rootFrame] using hadj)
    cases top with
    | idle hseg =>
      obtain ⟨m', j', hg, ⟨hctl, _⟩, hout, tp, tid, hi'⟩ := hseg (mach0.setDiscardBom false) j0
        ⟨ctl_start, noattr_start⟩ hinv0
      have hrun := jrun_of_gsteps o hg hout (fun pol => data_suspend o ho pol m' hctl) tinv_start _ hmu
      rw [hrun]
      obtain ⟨j2, hfin, hroot⟩ := joint_finish_idle o ho m' j' ([] ++ f) tp tid hctl hout
        (by simpa [rootFrame] using hi')
      rw [← finish_none o m' j' hctl.cr] at hfin
      refine ⟨j2.tb.dom, ?_, by simpa using hroot.1, hroot.2⟩
      simp [hfin, Except.map, afterFeed]
    | pending nm v c cs' toks' hr hv htoks hcs hseg =>
      obtain ⟨m', j', hg, ⟨cr, hcr, hd, _⟩, hout, tp, tid, hi'⟩ := hseg (mach0.setDiscardBom false) j0
        ⟨ctl_start, noattr_start⟩ hinv0
      have hrun := jrun_of_gsteps o hg hout (fun pol => cr_suspend o pol m' _ cr hcr) tinv_start _ hmu
      rw [hrun]
      obtain ⟨j2, hfin, hroot⟩ := joint_finish_pending o ho m' j' cr nm v cs' ([] ++ f) tp tid hcr hd hr hout
        (by simpa [rootFrame] using hi') (by rw [hv]; simpa [rootFrame] using hcs)
      refine ⟨j2.tb.dom, ?_, by simpa using hroot.1, hroot.2⟩
      simp [hfin, Except.map, afterFeed]

end H5V.Lemmas.HtmlRT
