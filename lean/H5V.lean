import H5V.Model.BufferQueue
import H5V.Props.C13
